#!/usr/bin/env python3
"""seedtest.py <seed_dir> <seed_id> [--props C01,C02] [--keep]

Confirms a seeded change (patch.diff + demo.py + meta.json) in a scratch worktree of /repo and runs the registered
checks against it:
  1. demo passes on the unchanged tree, fails with the patch;
  2. the test-suite has no new failures with the patch;
  3. each named property's quick check is run with PW_REPO=<worktree> and its verdict recorded.
Writes /verif/seeded/<seed_id>/{patch.diff, demo.py, meta.json} (meta.json extended with what was run) when 1 and 2
hold.  The worktree is removed afterwards.  Nothing is ever applied to /repo itself by this script.
"""
import json
import os
import re
import shutil
import subprocess
import sys

VERIF = os.path.dirname(os.path.dirname(os.path.abspath(__file__)))
PY = "/venv/bin/python"


def run(cmd, cwd=None, env=None, timeout=1800):
    p = subprocess.run(cmd, cwd=cwd, env=env, capture_output=True, text=True, timeout=timeout)
    return p.returncode, (p.stdout + p.stderr)


def failing_tests(root):
    rc, out = run([PY, "-m", "pytest", "-q", "-p", "no:cacheprovider", "polliwog", "-rf"], cwd=root)
    fails = sorted(set(re.findall(r"^FAILED (\S+)", out, flags=re.M)))
    summary = [l for l in out.strip().split("\n") if " passed" in l or " failed" in l][-1:]
    return fails, (summary[0] if summary else out[-200:])


def main():
    seed_dir, seed_id = sys.argv[1], sys.argv[2]
    props = []
    for i, a in enumerate(sys.argv):
        if a == "--props":
            props = sys.argv[i + 1].split(",")
    meta = json.load(open(os.path.join(seed_dir, "meta.json")))
    props = props or [meta["property"]]
    wt = "/tmp/seedchk_" + seed_id
    subprocess.run(["git", "-C", "/repo", "worktree", "remove", "--force", wt], capture_output=True)
    rc, out = run(["git", "-C", "/repo", "worktree", "add", "--detach", wt, "HEAD"])
    assert rc == 0, out
    result = {"seed": seed_id, "property": meta["property"]}
    try:
        demo = os.path.abspath(os.path.join(seed_dir, "demo.py"))
        patch = os.path.abspath(os.path.join(seed_dir, "patch.diff"))
        env = dict(os.environ)
        rc0, out0 = run([PY, demo], cwd=wt, env=env)
        base_fails, base_sum = failing_tests(wt)
        rca, outa = run(["git", "apply", patch], cwd=wt)
        if rca != 0:
            rca, outa = run(["git", "apply", "--3way", patch], cwd=wt)
        result["patch_applies"] = rca == 0
        if rca != 0:
            result["error"] = outa[-500:]
            print(json.dumps(result, indent=1))
            return 1
        rc1, out1 = run([PY, demo], cwd=wt, env=env)
        new_fails, new_sum = failing_tests(wt)
        result.update({"demo_passes_unchanged": rc0 == 0, "demo_fails_with_patch": rc1 != 0,
                       "baseline_tests": base_sum, "patched_tests": new_sum,
                       "new_test_failures": [t for t in new_fails if t not in base_fails]})
        ok = rc0 == 0 and rc1 != 0 and not result["new_test_failures"]
        result["confirmed"] = ok
        checks = {}
        for pid in props:
            e = dict(os.environ, PW_REPO=wt)
            rc, out = run([PY, os.path.join(VERIF, "harness", "check.py"), pid, "--tier", "quick"], cwd=VERIF, env=e)
            viol = re.findall(r"^VIOLATION .*$", out, flags=re.M)
            keys = re.findall(r"violation key=([^:]+):", out)
            checks[pid] = {"exit": rc, "violation_lines": viol[:3], "keys": sorted(set(keys))[:8],
                           "detected": rc == 1 and bool(viol)}
        result["checks"] = checks
        # regenerate the generated Lean fragment from /repo again (the runs above regenerated it from the worktree)
        run([PY, os.path.join(VERIF, "harness", "regen.py")], cwd=VERIF)
        if ok:
            dst = os.path.join(VERIF, "seeded", seed_id)
            os.makedirs(dst, exist_ok=True)
            if os.path.abspath(patch) != os.path.abspath(os.path.join(dst, "patch.diff")):
                shutil.copy(patch, os.path.join(dst, "patch.diff"))
                shutil.copy(demo, os.path.join(dst, "demo.py"))
            meta2 = {k: v for k, v in meta.items() if k not in ("detected_by", "ran", "confirmed", "breaks_property")}
            meta2["breaks_property"] = meta["property"]
            meta2["confirmed"] = {"demo_passes_unchanged": True, "demo_fails_with_patch": True,
                                  "tests_with_patch": new_sum, "new_test_failures": []}
            meta2["ran"] = ["git worktree add + git apply patch.diff", PY + " demo.py", PY + " -m pytest polliwog",
                            "PW_REPO=<worktree> check.py <prop> --tier quick for " + ",".join(props)]
            meta2["detected_by"] = {p: c for p, c in checks.items()}
            json.dump(meta2, open(os.path.join(dst, "meta.json"), "w"), indent=1)
    finally:
        subprocess.run(["git", "-C", "/repo", "worktree", "remove", "--force", wt], capture_output=True)
    print(json.dumps(result, indent=1))
    return 0


if __name__ == "__main__":
    sys.exit(main())
