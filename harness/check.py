#!/venv/bin/python
"""check.py <Cxx> [--tier quick|thorough] [--replay <file>]

exit 0: property held on everything explored (known findings printed as KNOWN-FINDING lines)
exit 1: `VIOLATION property=<id> replay=<path>` printed
exit 2: infrastructure failure / timeout (never a VIOLATION line)
"""
import argparse
import importlib
import os
import sys
import traceback

HERE = os.path.dirname(os.path.abspath(__file__))
sys.path.insert(0, HERE)
PYDEPS = os.path.join(os.path.dirname(HERE), ".pydeps")
if os.path.isdir(PYDEPS):
    sys.path.append(PYDEPS)
os.environ.setdefault("POLLIWOG_VERIF", "1")
# PW_REPO=<dir> runs the checks against another checkout of polliwog (scratch worktrees, mutation tests);
# the default is /repo's working tree (polliwog is an editable install of /repo).
REPO = os.environ.get("PW_REPO", "/repo")
sys.path.insert(0, REPO)


def main():
    ap = argparse.ArgumentParser()
    ap.add_argument("prop")
    ap.add_argument("--tier", default=os.environ.get("VERIF_TIER", "quick"))
    ap.add_argument("--replay", default=None)
    a = ap.parse_args()
    seed = int(os.environ.get("VERIF_SEED", "0") or 0)
    tier = a.tier if a.tier in ("quick", "thorough") else "quick"
    # watchdog: a run that takes this long is an infrastructure failure (exit 2), never a verdict
    import signal

    def on_timeout(signum, frame):
        print("[%s] timed out" % a.prop, flush=True)
        os._exit(2)
    signal.signal(signal.SIGALRM, on_timeout)
    signal.alarm(int(os.environ.get("VERIF_TIMEOUT_S", "1200" if tier == "quick" else "5400")))
    try:
        import numpy as np
        np.seterr(all="ignore")
        import warnings
        warnings.filterwarnings("ignore")
        import polliwog  # noqa: F401  (the real code, from /repo's working tree)
        mod = importlib.import_module("props." + a.prop.lower())
        from pwlib import engine
        rc = engine.run_check(mod, tier, seed, replay=a.replay)
    except Exception:
        traceback.print_exc()
        print("[%s] infrastructure failure" % a.prop)
        rc = 2
    sys.exit(rc)


if __name__ == "__main__":
    main()
