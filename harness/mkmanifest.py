#!/usr/bin/env python3
"""writes /verif/MANIFEST.json from harness/manifest_data.py (kept as code so it is always valid)"""
import json, os, sys
HERE = os.path.dirname(os.path.abspath(__file__))
sys.path.insert(0, HERE)
from manifest_data import CHECKS, NOT_APPLICABLE, NOTES

props = [json.loads(l)["id"] for l in open(os.path.join(HERE, "..", "properties.jsonl"))]
checks = []
for pid in props:
    if pid not in CHECKS:
        continue
    c = CHECKS[pid]
    checks.append({
        "property_id": pid,
        "quick_cmd": "/venv/bin/python harness/check.py %s --tier quick" % pid,
        "thorough_cmd": "/venv/bin/python harness/check.py %s --tier thorough" % pid,
        "evidence_file": "/verif/evidence/%s.json" % pid,
        "replay_cmd_template": "/venv/bin/python harness/check.py %s --replay {path}" % pid,
        "engine": "lean4-proof+correspondence",
        "level_claimed": {"category": "proof", "text": c["text"], "design_ref": c.get("design_ref", "DESIGN.md §6 " + pid)},
        "level_note": c["note"],
        "technique": c.get("technique", "Lean 4 theorems about a model + model/code correspondence check"),
    })
na = [{"property_id": p, "reason": NOT_APPLICABLE.get(p, "check not built yet (work in progress); not claimed")}
      for p in props if p not in CHECKS]
m = {
    "version": 1,
    "setup_cmd": "cd /verif && ./setup.sh",
    "hooks": {"guard": "POLLIWOG_VERIF", "enable": "no source hooks are needed; checks import polliwog from /repo's working tree and set POLLIWOG_VERIF=1 (unused by the code)",
              "baseline_off_cmd": "cd /repo && /venv/bin/python -m pytest -ra -q -p no:cacheprovider --timeout=900 --continue-on-collection-errors",
              "source_commits": [], "add_only": True},
    "engines": [{"name": "lean4-proof+correspondence", "path": "/verif/harness/check.py",
                 "serves_properties": [c["property_id"] for c in checks],
                 "kind_free_text": "Lean 4 (Mathlib) theorems about a polymorphic model of polliwog in /verif/lean; generated fragment re-translated from /repo each run; model executed as a compiled driver at exact rationals and IEEE doubles and diffed against the real code; property oracle for failing-input search"}],
    "checks": checks,
    "notes": NOTES,
    "not_applicable": na,
}
json.dump(m, open(os.path.join(HERE, "..", "MANIFEST.json"), "w"), indent=1)
print("wrote MANIFEST.json: %d checks, %d not claimed" % (len(checks), len(na)))
