#!/bin/sh
# runs every registered check (quick tier by default) against /repo and prints one line per property
cd "$(dirname "$0")"
tier=${1:-quick}
rc=0
for i in 01 02 03 04 05 06 07 08 09 10 11 12 13 14 15 16 17 18 19 20; do
  out=$(/venv/bin/python harness/check.py C$i --tier $tier 2>&1); r=$?
  echo "$out" | grep -E "^VIOLATION|^KNOWN-FINDING" | cut -c1-160
  echo "$out" | tail -1
  [ $r -ne 0 ] && rc=1
done
exit $rc
