#!/bin/sh
# Build the framework from files on disk only (offline).
set -e
cd "$(dirname "$0")"
# jsonschema (needed by C19 only: Polyline/Plane.validate) into a private directory; /venv is left untouched
if [ ! -d .pydeps/jsonschema ]; then
  /venv/bin/pip install --quiet --no-index --find-links /opt/veriftools/wheels --target .pydeps jsonschema >/dev/null 2>&1 || \
    echo "warning: could not install jsonschema into .pydeps"
fi
# regenerate the generated model fragment from /repo, then build every property target and the model driver
/venv/bin/python harness/regen.py
python3 harness/genroots.py
cd lean
lake build PW pwdriver
